#!/usr/bin/env python3
"""Generates /verif/MANIFEST.json from the table below (kept in one place so the
manifest is always valid and in step with the rules that exist)."""
import json, os, sys
here = os.path.dirname(os.path.dirname(os.path.abspath(__file__)))

# id -> (technique, level text, level note (trusted base / not decided), design ref)
P = {
 "C01": ("who-may-call + error-discipline + typestate pairing over SSA CFG; sibling agreement of the two drivers",
         "Necessary structural conditions of the zero-sum ledger on every path: only paired transfers/forwarders/settlement write the ledger, no ledger error is dropped, credits and accumulated debit pair up in OnUpdate, drivers write exactly one balance per AddNodeBalance and migrate trial credit atomically. In-place big.Int operations work on values the function owns and no *big.Int result aliases a parameter's field; every id in a badger key format is spelled as the id itself; a function handed to a retrying transaction wrapper keeps nothing from a failed attempt.",
         "Does not decide the arithmetic value of sums nor run-time transaction conflicts; K1 (credits and debit are separate store transactions) is a recorded known finding.", "§2 C01"),
 "C02": ("value-provenance (derives-from) and dominance rules over SSA",
         "Structural conditions of billing: hosts/zero credit write nothing, pre-update snapshot ordering in Update, a single credit value from the client's own LastSeen, big.Int-only arithmetic, multiply-before-divide, LastSeen refreshed by both drivers, divisor guarded. In-place big.Int operations work on values the function owns (no shared digits). Also evaluates the tracked-peer rules of C11 and the drivers' ledger rules of C01 (who is billed is who the store tracks).",
         "Does not decide the numeric identity floor(elapsed*price/interval) nor slicing invariance.", "§2 C02"),
 "C03": ("canonical-predicate and gate-reachability rules over SSA",
         "Structural conditions of the minimum-balance rule: refusal predicate is canonically deposit+credit < min on the post-debit balance, hosts exempt, cut-off calls vipnode_disconnect on every connected peer before returning. The configured minimum is parsed in exact arithmetic and installed for every value but off; in-place big.Int operations work on values the function owns. The error text reports the balance as the balance; after one disconnect call the fan-out loop goes on.",
         "Does not decide threshold arithmetic on concrete balances nor that hosts honour the call.", "§2 C03"),
 "C04": ("must-pass-through (gate reachability) + argument provenance over SSA; registry discovery through go/types",
         "Every signed endpoint discovered from the Register calls reaches its effects only through the success edge of a verify call that passes its own sig/identity/nonce, the registered method name and all request parameters; the wrappers and request.Verify have the required shape. No repository type inside a signed endpoint's parameters declares its own JSON/text codec. Every wrapper keys the nonce store by the verified identity; signature shape tests refuse exactly non-signatures (len < h, both legacy recovery values).",
         "Does not decide cryptographic strength or JSON canonicalisation.", "§2 C04"),
 "C05": ("canonical-predicate, lock/transaction-region and key-provenance rules over SSA; sibling agreement",
         "Both NonceStore implementations reject canonically stored >= nonce, perform load-compare-store in one lock/transaction region, enforce the 15-minute freshness window before storing, and key by the identity only; the persistent record outlives the nonce's freshness; nothing but CheckAndSaveNonce writes the nonce space; wrappers pass the same identity/nonce to Verify and to the nonce store and refuse on every nonce-store error. The signature binds the identity as received and the exact nonce (hash-covers, shared with C04). Every value the persisted TTL can take includes the window; the nonce's lead is added only when positive.",
         "Does not decide behaviour across reopen (C13 rules) nor clock skew.", "§2 C05"),
 "C06": ("gate reachability over SSA CFGs",
         "In every wrapper the nonce store is reachable only past request.Verify's success edge; in every signed endpoint no effect is reachable with the verify success edges removed. No nonce-space write precedes a refusing return of CheckAndSaveNonce. Also evaluates the nonce-store rules of C05 (a replay that is honoured is a refused request that changed something).",
         "Refusals for reasons other than authentication are outside C06.", "§2 C06"),
 "C07": ("gate reachability, must-pass-through, provenance and lockset rules over SSA",
         "Withdraw settles only past verify and the canonical minimum check on deposit+credit of the verified wallet, pays that sum (through the fee), consumes exactly the credit read on every path after a successful settle, inside one lock region; no ledger write on failure paths. Deposit-cache keys derive from Address.Hex() on both sides and a miss-fill never overwrites a newer Set; ledger keys are spelled as the id itself; in-place big.Int operations work on owned values. No argument is named like a different same-typed parameter of its callee (settlement amounts in their own positions); every key format is a known prefix followed by %s.",
         "Does not decide on-chain effects nor fee arithmetic.", "§2 C07"),
 "C08": ("canonical-predicate, provenance and sibling-agreement rules over SSA",
         "requestHosts clamps and refuses non-positive counts, bounds the reply by the request, skips self and existing peers, accepts only hosts that acknowledged vipnode_whitelist for the requester (every Service.Call implementation turns an error reply into an error); the tracked peer set survives re-registration; both drivers filter on host flag, kind and recency with agreeing limit semantics. Also evaluates the registry rules of C09 (currently connected).",
         "Does not decide counts for concrete populations nor arrival orders.", "§2 C08"),
 "C09": ("control-dependence, lockset and must-pass-through rules over SSA",
         "Closing a connection can only unregister that connection's own entry; both registry maps are written together under the pool mutex; the value registered is the caller's connection; the server calls the disconnect hook on every exit of the serve loop, which returns without blocking once the codec fails; no other site deletes registry entries. The per-id reply channel is buffered so the read loop reaches the failing read. No reverse call or channel wait under the registry lock; every connected peer is told to drop a cut-off client.",
         "Does not decide closes racing in-flight requests.", "§2 C09"),
 "C10": ("lockset dataflow + freshness (ownership) analysis over the handler-reachable call graph (VTA)",
         "Every field of a mutex-bearing shared type that a handler writes is accessed under that mutex; no unsynchronised write to non-fresh shared state in handler scope; each badger method is exactly one transaction; no in-place big.Int mutation of shared snapshots; no blocking call under a lock. No atomic load/compute/store sequence outside a lock; OnUpdate's credits and debit pair up on every path; big.Int ownership; retry closures start from scratch; pointer-receiver calls of stateful library value types on a field's address count as writes. Also evaluates C07's settlement rules and the codec read-ahead rule; no atomic operation on a by-value copy.",
         "Does not decide serialisability of multi-call operations or run-time transaction conflicts.", "§2 C10"),
 "C11": ("provenance, canonical-predicate and sibling-agreement rules over SSA",
         "Both drivers track only known peers with the peer's own LastSeen, evict canonically timestamp <= now-ExpireInterval with deleted <=> reported, persist in the same region, look every reported peer up and rewrite every found peer's entry (refresh), run the expiry sweep on every accepted keep-alive; Update wires InvalidPeers/ActivePeers from the right store results. Which of a peer description's names is its id depends on the text's shape only; retry closures start from scratch. From the not-found edge of the peer lookup the loop goes on to the next id; a re-registration keeps the tracked peers (found branch).",
         "Does not decide the history-level 'exactly if' statement.", "§2 C11"),
 "C12": ("sibling cross-check of per-method effect summaries computed from SSA",
         "For each Store method both drivers have equal write/delete sets over the abstract key spaces, equal assigned fields and equal sentinel errors; gob decode targets are fresh (also through decode helpers; loopItem resets its target); where badger answers a miss with a sentinel the memory driver's lookup is comma-ok; both drivers run the expiry sweep on every successful UpdateNodePeers. Inverse indexes beside a contract map are verified (add/remove/owner/made) or reported; badger keys are spelled as the id itself; host-query filters are canonical in both drivers; retry closures start from scratch. IsAccountNode's nil return needs link found AND stored account equal; Stats counts activity with ExpireInterval; also the nonce-store rules and big.Int ownership.",
         "Does not decide value-level equality on arbitrary operation sequences.", "§2 C12"),
 "C13": ("transaction-region, error-propagation and API-contract (key lifetime) rules over SSA",
         "Every badger method is one transaction, every write error inside a transaction reaches the closure's result, no Item.Key() slice is retained by a write, no transaction is nested in another, migrations run in one transaction, bump the version and touch only non-ledger prefixes (also inside helpers), and the pool binary backs every service with the one selected store. Badger keys are spelled as the id itself; retry closures start from scratch. Also evaluates the nonce-store rules (persisted TTL) and C11's driver rules (whole reported peer set stored).",
         "Does not decide crash points or durability (badger is trusted).", "§2 C13"),
 "C14": ("provenance, lockset and shape rules over SSA",
         "Replies are routed by the id of the very message written/received, requests are dispatched asynchronously with a buffered reply channel, handlers get their own connection in the context, waits are cancellable, ids are atomic, no blocking under Remote.mu, nil embedded responses are not dereferenced. No Codec.WriteMessage keeps unguarded state between calls. Remainder before connection where they are joined; no atomic operation on a by-value copy; pending slots discarded only at PendingLimit.",
         "Does not decide delivery orders or exactly-once handling under concrete schedules.", "§2 C14"),
 "C15": ("panic-site enumeration in the network-reachable scope (VTA call graph) using the compiler's unproven bounds checks (-d=ssa/check_bce) plus guard recognition",
         "Every panic-capable construct reachable from a network message (unproven bounds checks, nil embedded message parts, make with unproven size, make sizes not bounded by what the process holds, nil-map writes, type assertions, explicit panics, unguarded big.Int division) is discharged by a dominating guard or a named exception. The Account bounds exception holds only while both drivers' AddAccountNode refuse unregistered ids; no map of a mutex-bearing struct is written under a read lock; a host connection is registered only past a successful context lookup.",
         "Does not decide panics inside third-party libraries, resource exhaustion or liveness.", "§2 C15"),
 "C16": ("exhaustive registry enumeration through go/types method sets + gate reachability in Server.Handle",
         "The names exposed by every network-facing registration equal the documented surface; Register applies the allow-list and naming rule; Handle invokes a method only past registry hit and successful positional parsing; arity checks are present. No exposed method declares a pointer (optional) parameter. No success return of the positional parser ahead of the decoder and the missing-argument count.",
         "Does not decide JSON-to-Go decoding leniency per type.", "§2 C16"),
 "C17": ("ownership and lockset rules over SSA",
         "A stream codec keeps its decoder (or its buffered remainder) across reads; the shipped gorilla codec serialises writes and reads under its mutexes; the binaries import only that codec; the framed gobwas codec discards the unread remainder before the next frame and flushes every write; the HTTP stub is a plain POST the transport never replays. No interface{} member in the message types (foreign JSON is carried as raw bytes). Remainder read before the connection (io.MultiReader order); HTTP size limits refuse only bodies greater than MaxContentLength and LimitReaders are limited by it.",
         "Does not decide exactly-once/in-order over arbitrary chunkings.", "§2 C17"),
 "C18": ("gate reachability over the call graph, pairing and provenance rules over SSA",
         "Node mutators run only past a successful pool update; every invalid peer is both un-trusted and disconnected with the same id; strict mode keeps a local peer only on lookup-hit and equal host; the shortfall requested is NumHosts-len(ActivePeers) of the node's own kind; every returned host is dialled; Parity's reserved-peer RPCs never receive the bare enode://id form. Node adapters fail exactly when the RPC fails (sibling agreement), never on the reply's content. EnodeURI takes the id from EnodeID(); NodeURI.ID reads the id where the URL parser puts it; adapters' connect/disconnect reach only add/remove RPCs.",
         "Does not decide multi-round convergence.", "§2 C18"),
 "C19": ("provenance and gate-reachability rules over SSA",
         "The advertised URL's user derives only from the verified node id, host:port is built with net.JoinHostPort, empty hosts are refused before construction, registration happens only past successful normalisation, defaults come from RemoteAddr and the constant 30303. Address sources report net.Addr.String() as a whole; an override the URL parser rejects is refused. An override's host/port replaces the default only when known non-empty; address sources never call LocalAddr.",
         "Does not decide URI round-trips over all inputs.", "§2 C19"),
 "C20": ("lockset, must-pass-through and constant-evaluation rules over SSA",
         "Start tests-and-sets the started flag in one lock region and resets it on every path that does not leave a loop running; exactly one goroutine is spawned past successful connect/update; Stop/Wait are wired to it; the update interval is accepted only below the pool's expiry window. Every RemotePool stub waits on its own ctx parameter (Start's deadline reaches the pool call). One-shot timers are re-armed in the loop; no keep-alive after a reset that has taken effect; every use of the stop/wait channels follows the initialiser.",
         "Does not decide real-time cadence.", "§2 C20"),
}

BUILT = sys.argv[1:] if len(sys.argv) > 1 else open(os.path.join(here, "tools", "built.txt")).read().split()

checks, na = [], []
for pid in sorted(P):
    tech, text, note, ref = P[pid]
    if pid in BUILT:
        checks.append({
            "property_id": pid,
            "quick_cmd": "./check %s quick" % pid,
            "thorough_cmd": "./check %s thorough" % pid,
            "evidence_file": "/verif/evidence/%s.json" % pid,
            "replay_cmd_template": "cat {path}; ./check %s quick" % pid,
            "engine": "vipcheck",
            "level_claimed": {"category": "other", "text": text + " Plus the repository-wide discipline rules evaluated over this property's packages (err-polarity, loop-visits-all, cancel-after-use, trim-cutset, go-captures-live, shared-result, no-relock, pooled-escape, lock-copy, pure-stringer, param-backing-write, loop-decode-reuse, closure-loop-var, field-backing-append, response-outlives-context, and the closed RPC surface where the property quantifies over endpoints; DESIGN.md 8 and 8.1). Decides these structural clauses for all paths/call sites; it does not decide the behavioural property as a whole.", "design_ref": "DESIGN.md " + ref},
            "level_note": note + " Trusted base: go/types, go/ssa, VTA call graph, vipcheck's analyses, documented library semantics.",
            "technique": "static analysis: " + tech,
        })
    else:
        na.append({"property_id": pid, "reason": "check not built yet in this session (rules designed in DESIGN.md %s; being implemented) — not claimed until its rules run" % ref})

m = {
 "version": 1,
 "setup_cmd": "cd /verif/checker && GOFLAGS=-mod=mod GOPROXY=off GOSUMDB=off GOTOOLCHAIN=local go build -o /verif/bin/vipcheck .",
 "hooks": {
   "guard": "verif",
   "enable": "none needed: the checks read /repo's source (go/packages + go/ssa); no hook or instrumentation commit exists",
   "baseline_off_cmd": "cd /repo && go test -vet=off -count=1 ./...",
   "source_commits": [],
   "add_only": True,
 },
 "engines": [{"name": "vipcheck", "path": "/verif/checker", "serves_properties": sorted(BUILT),
              "kind_free_text": "repository-specific static analyser (go/packages, go/types, go/ssa, VTA call graph): gate reachability, provenance, canonical predicates, locksets, transaction regions, sibling agreement"}],
 "checks": checks,
 "not_applicable": na,
 "notes": "Technique family: static analysis only. All claims are at level 'other' (structural necessary conditions decided for all paths; see DESIGN.md). Known findings: /verif/known-findings.txt.",
}
json.dump(m, open(os.path.join(here, "MANIFEST.json"), "w"), indent=1)
print("MANIFEST.json: %d checks, %d not_applicable" % (len(checks), len(na)))
