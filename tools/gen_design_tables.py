#!/usr/bin/env python3
"""Regenerates the seeded-change table of DESIGN.md (between the SEED-TABLE markers) from seeded/*/meta.json."""
import json, glob, os, re
rows = []
def keyf(d):
    b = os.path.basename(d); p, k = b.split('-'); return (p, int(k))
tot = missed = 0
for d in sorted(glob.glob('/verif/seeded/*'), key=keyf):
    m = json.load(open(d + '/meta.json'))
    need = m.get('needs_to_manifest', '').replace('|', '/').replace('\n', ' ')
    if len(need) > 170: need = need[:167] + '...'
    ob = m.get('expect_obligation', '?')
    tot += 1
    if m.get('missed_by_first_version_of_check'): missed += 1
    rows.append(f"| {os.path.basename(d)} | {need} | `{ob}` | {'yes' if m.get('missed_by_first_version_of_check') else ''} |")
table = "| seed | needs, to manifest | caught by obligation(s) | missed at first |\n|------|--------------------|-------------------------|-----------------|\n" + "\n".join(rows) + "\n"
p = '/verif/DESIGN.md'
s = open(p).read()
b, e = '<!-- SEED-TABLE-BEGIN -->', '<!-- SEED-TABLE-END -->'
i, j = s.index(b) + len(b), s.index(e)
s = s[:i] + "\n" + table + s[j:]
open(p, 'w').write(s)
print(f"{tot} seeds, {missed} missed at first")
