#!/bin/sh
# runs every check's quick (or $1) tier against /repo, then validates manifest and evidence
cd "$(dirname "$0")/.." || exit 1
tier=${1:-quick}
rc=0
for i in 01 02 03 04 05 06 07 08 09 10 11 12 13 14 15 16 17 18 19 20; do
  ./check C$i $tier | grep -E "^(VIOLATION|KNOWN-FINDING|C$i )" | cut -c1-200 || rc=1
done
python3-vt tools/validate.py | tail -1
