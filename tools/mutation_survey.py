#!/usr/bin/env python3
"""Mutation survey (a tool for finding gaps, not a registered check): every single-token mutant of the non-test source
(bin/mutgen) is applied to a scratch copy of /repo; mutants that do not build or that the project's own test suite
kills are set aside; for the survivors all 20 checks are run. A survivor no check reports is printed as UNCAUGHT for
triage (many are equivalent mutants or touch code outside every property).
usage: mutation_survey.py [-j N] [--files substr,substr] [--out file.json]"""
import argparse, concurrent.futures as cf, json, os, shutil, subprocess, sys, tempfile
here = os.path.dirname(os.path.dirname(os.path.abspath(__file__)))
repo = os.environ.get('VIPCHECK_REPO', '/repo')
ap = argparse.ArgumentParser()
ap.add_argument('-j', type=int, default=8)
ap.add_argument('--files', default='')
ap.add_argument('--out', default='')
ap.add_argument('--limit', type=int, default=0)
ap.add_argument('--recheck', default='', help='a previous --out file: re-run the checks on its uncaught rows only (tests are not re-run)')
a = ap.parse_args()
env = dict(os.environ, GOFLAGS='-mod=mod -trimpath', GOPROXY='off', GOSUMDB='off', GOTOOLCHAIN='local')
env.pop('GOWORK', None)
muts = [json.loads(l) for l in subprocess.run([os.path.join(here, 'bin', 'mutgen'), repo], capture_output=True, text=True).stdout.splitlines() if l.strip()]
recheck = False
if a.recheck:
    muts = [r for r in json.load(open(a.recheck)) if r['status'] == 'uncaught']
    recheck = True
if a.files:
    subs = a.files.split(',')
    muts = [m for m in muts if any(s in m['file'] for s in subs)]
if a.limit:
    muts = muts[:a.limit]

def run(m):
    tmp = tempfile.mkdtemp(prefix='vipsurvey.')
    try:
        dst = os.path.join(tmp, 'repo')
        shutil.copytree(repo, dst, ignore=shutil.ignore_patterns('.git'), symlinks=True)
        f = os.path.join(dst, m['file'])
        b = open(f, 'rb').read()
        if b[m['off']:m['off'] + m['len']].decode() != m['old']:
            return m, 'skipped', ''
        open(f, 'wb').write(b[:m['off']] + m['new'].encode() + b[m['off'] + m['len']:])
        if subprocess.run(['go', 'build', './...'], cwd=dst, env=env, capture_output=True).returncode != 0:
            return m, 'nobuild', ''
        try:
            if recheck:
                raise StopIteration
            t = subprocess.run(['go', 'test', '-vet=off', '-count=1', '-timeout', '120s', './...'], cwd=dst, env=env, capture_output=True, text=True, timeout=400)
            if t.returncode != 0:
                return m, 'killed-by-tests', ''
        except subprocess.TimeoutExpired:
            return m, 'killed-by-tests', 'timeout'
        except StopIteration:
            pass
        r = subprocess.run([os.path.join(here, 'bin', 'vipcheck'), '-repo', dst, '-prop', 'all', '-evidence', os.path.join(tmp, 'ev'), '-reports', os.path.join(tmp, 'rep'), '-known', os.path.join(here, 'known-findings.txt')], capture_output=True, text=True, env=env)
        fired = sorted({l.split()[1].split('.')[0] for l in r.stdout.splitlines() if l.startswith(('VIOLATED ', 'UNDECIDED '))})
        return m, ('caught' if r.returncode == 1 else 'uncaught'), ','.join(fired)
    finally:
        shutil.rmtree(tmp, ignore_errors=True)

res = {}
rows = []
with cf.ThreadPoolExecutor(a.j) as ex:
    for m, st, info in ex.map(run, muts):
        res[st] = res.get(st, 0) + 1
        rows.append(dict(m, status=st, info=info))
        if st == 'uncaught':
            print('UNCAUGHT %s:%d  %s -> %s  (%s)' % (m['file'], m['line'], m['old'].strip() or "''", m['new'] or "''", m['kind']), flush=True)
print('mutation survey:', json.dumps(res))
if a.out:
    json.dump(rows, open(a.out, 'w'), indent=0)
