#!/usr/bin/env python3
"""False-alarm test by renaming: every unexported function/method/type the rules look up by name is renamed
consistently (gofmt -r, all .go files incl. tests) in a scratch copy of /repo; the copy must build and all 20
checks must stay silent.  usage: rename_test.py [-j N] [name ...]"""
import os, shutil, subprocess, sys, tempfile, concurrent.futures as cf
here = os.path.dirname(os.path.dirname(os.path.abspath(__file__)))
repo = os.environ.get('VIPCHECK_REPO', '/repo')
NAMES = ['connect', 'requestHosts', 'disconnectPeers', 'runPool', 'intervalCredit', 'receive', 'handleRequest',
         'getPendingChan', 'serveUpdates', 'assemble', 'hash', 'normalizeNodeURI', 'parsePositionalArguments',
         'payPerInterval', 'jsonCodec', 'wsCodec', 'server', 'agentRunner', 'balanceCache', 'contractPayment',
         'memoryStore', 'badgerStore', 'verify', 'setStarted', 'cleanPending', 'loopItem', 'getItem', 'setItem',
         'setExpiringItem', 'hasKey', 'memNode', 'hostService', 'clearPending', 'pendingOldest', 'overrideEOF',
         'pendingQueue', 'pendingMsg', 'pendingItem', 'getVersion', 'setVersion', 'checkVersion', 'getNonce', 'oldUpdateRequest',
         # unexported struct fields
         'nodes', 'balances', 'trials', 'accounts', 'nonces', 'peers', 'remoteHosts', 'remoteNodeLookup', 'skipWhitelist',
         'nonceExpire', 'onDisconnect', 'registry', 'pending', 'buffered', 'rwc', 'started', 'stopCh', 'waitCh', 'nodeInfo',
         'cache', 'withdrawMu', 'muWrite', 'muRead', 'mu', 'id', 'db', 'now', 'remoteAddr']
env = dict(os.environ, GOFLAGS='-mod=mod -trimpath', GOPROXY='off', GOSUMDB='off', GOTOOLCHAIN='local')
env.pop('GOWORK', None)
def run(name):
    new = 'zz' + name[0].upper() + name[1:] + 'Renamed' if name[0].islower() else 'Zz' + name + 'Renamed'
    tmp = tempfile.mkdtemp(prefix='vip-rename-')
    try:
        dst = os.path.join(tmp, 'repo')
        shutil.copytree(repo, dst, ignore=shutil.ignore_patterns('.git'))
        files = subprocess.run(['git', '-C', repo, 'ls-files', '*.go'], capture_output=True, text=True).stdout.split()
        r = subprocess.run(['gofmt', '-r', f'{name} -> {new}', '-w'] + files, cwd=dst, capture_output=True, text=True)
        if r.returncode != 0:
            return name, 'skipped', 'gofmt: ' + r.stderr[:200]
        b = subprocess.run(['go', 'vet', '-vettool=/bin/true', './...'], cwd=dst, env=env, capture_output=True, text=True)
        b = subprocess.run(['go', 'build', './...'], cwd=dst, env=env, capture_output=True, text=True)
        if b.returncode != 0:
            return name, 'skipped', 'does not build after rename: ' + b.stderr.strip()[:200]
        t = subprocess.run(['go', 'test', '-vet=off', '-count=1', '-run', 'XXX', './...'], cwd=dst, env=env, capture_output=True, text=True)
        if t.returncode != 0:
            return name, 'skipped', 'tests do not compile after rename: ' + (t.stdout + t.stderr).strip()[-200:]
        c = subprocess.run([os.path.join(here, 'bin', 'vipcheck'), '-repo', dst, '-prop', 'all', '-evidence', os.path.join(tmp, 'ev'), '-reports', os.path.join(tmp, 'rep'), '-known', os.path.join(here, 'known-findings.txt')], capture_output=True, text=True, env=env)
        fired = [l.split()[1] for l in c.stdout.splitlines() if l.startswith(('VIOLATED ', 'UNDECIDED '))]
        if c.returncode != 0:
            return name, 'FALSE-ALARM', ', '.join(fired)[:600]
        return name, 'silent', ''
    finally:
        shutil.rmtree(tmp, ignore_errors=True)
args = sys.argv[1:]
j = 6
if '-j' in args:
    i = args.index('-j'); j = int(args[i + 1]); del args[i:i + 2]
names = args or NAMES
res = {}
with cf.ThreadPoolExecutor(j) as ex:
    for name, st, info in ex.map(run, names):
        res[st] = res.get(st, 0) + 1
        if st != 'silent': print(f'{st:12} {name:28} {info}')
print('renames:', ' '.join(f'{k}={v}' for k, v in sorted(res.items())))
