#!/usr/bin/env python3
# usage: seedmeta.py <seed-id> <prop> "<what it needs to manifest>"   (run after confirm_seed.sh stored the seed)
# Runs the property's check against the seed in a scratch copy and writes seeded/<id>/meta.json; a seed the check
# does not catch is recorded with missed_by_first_version_of_check=true (kept true after the rule is strengthened).
import json, os, subprocess, sys
sid, prop, needs = sys.argv[1], sys.argv[2], sys.argv[3]
d = f'/verif/seeded/{sid}'
mp = d + '/meta.json'
old = json.load(open(mp)) if os.path.exists(mp) else {}
if not old:
    json.dump({"property": prop}, open(mp, 'w'))
out = subprocess.run(['python3', '/verif/tools/selftest.py', '--seeded', '--only', sid, '-v'], capture_output=True, text=True).stdout
fired = [l for l in out.splitlines() if l.startswith('FIRED')]
keys = ' '.join(fired[0].split()[3:]) if fired else ''
meta = {
 "property": prop, "breaks": prop, "needs_to_manifest": needs,
 "expect_obligation": keys or old.get('expect_obligation', ''),
 "missed_by_first_version_of_check": old.get('missed_by_first_version_of_check', not fired),
 "confirmed": "tools/confirm_seed.sh in a scratch worktree of /repo HEAD (removed afterwards): (a) go test -vet=off -count=1 ./... passes with patch.diff applied, (b) the demo (demo_test.go.txt, copied into the package directory named in its header) fails with the patch, (c) passes without it",
 "checked_with": f"python3 tools/selftest.py --seeded --only {sid}",
 "origin": "independent sub-agent given only the property text and its own worktree (round %d)" % (((int(sid.split('-')[1]) - 1) // 3 + 1) if int(sid.split('-')[1]) <= 15 else (6 if int(sid.split('-')[1]) <= 20 else (7 if int(sid.split('-')[1]) <= 23 else (8 if int(sid.split('-')[1]) <= 26 else (9 if int(sid.split('-')[1]) <= 29 else (10 if int(sid.split('-')[1]) <= 32 else (11 if int(sid.split('-')[1]) <= 35 else 12))))))),
}
json.dump(meta, open(mp, 'w'), indent=1)
print(sid, 'FIRED ' + keys if fired else 'MISSED', '| ' + out.strip().splitlines()[-1][:200])
